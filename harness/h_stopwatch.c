/* h_stopwatch: executes a schedule of qb_util_stopwatch_* calls on the real library under a virtual
 * clock (this file defines clock_gettime; libqb is linked statically so it wins over libc) and records
 * every call with its result (ndjson) for StopwatchTrace.tla.  Times are logged in microseconds.
 * usage: h_stopwatch <schedule> <trace-out>
 * ops: Tick <us> | Start | Stop | Elapsed | SplitCtl <n> <0|1> | Split | SplitLast | SplitGet <recent> <older> | Reset */
#include "os_base.h"
#include <time.h>
#include <qb/qbdefs.h>
#include <qb/qbutil.h>
#include "vtrace.h"

static uint64_t vnow_us = 1000;
int clock_gettime(clockid_t c, struct timespec *ts) { ts->tv_sec = vnow_us / 1000000; ts->tv_nsec = (vnow_us % 1000000) * 1000; return 0; }
int clock_getres(clockid_t c, struct timespec *ts) { ts->tv_sec = 0; ts->tv_nsec = 1; return 0; }

static qb_util_stopwatch_t *sw;
static void fresh(void) { if (sw) qb_util_stopwatch_free(sw); sw = qb_util_stopwatch_create(); vnow_us = 1000; }

int main(int argc, char **argv)
{
	if (argc < 3) return 2;
	FILE *f = fopen(argv[1], "r");
	if (!f) { perror(argv[1]); return 2; }
	vt_open(argv[2]);
	struct vt_line L;
	fresh();
	while (vt_readline(f, &L)) {
		const char *op = L.tok[0];
		long long a1 = vt_argi(&L, 1), a2 = vt_argi(&L, 2);
		if (!strcmp(op, "Reset")) { fresh(); vt_simple("Reset"); }
		else if (!strcmp(op, "Tick")) { vnow_us += (uint64_t)a1; vt_ev(op); vt_i(a1); vt_res(); vt_end(); }
		else if (!strcmp(op, "Start")) { qb_util_stopwatch_start(sw); vt_simple(op); }
		else if (!strcmp(op, "Stop")) { qb_util_stopwatch_stop(sw); vt_simple(op); }
		else if (!strcmp(op, "Elapsed")) {
			uint64_t us = qb_util_stopwatch_us_elapsed_get(sw);
			float s = qb_util_stopwatch_sec_elapsed_get(sw);
			/* the float variant must agree with the integer one to float precision */
			double d = (double)s * 1e6 - (double)us; if (d < 0) d = -d;
			if (d > (double)us * 1e-6 + 1.0) us = (uint64_t)-1;
			vt_ev(op); vt_res(); vt_i((long long)us); vt_end();
		}
		else if (!strcmp(op, "SplitCtl")) {
			int rc = qb_util_stopwatch_split_ctl(sw, (uint32_t)a1, a2 ? QB_UTIL_SW_OVERWRITE : 0);
			vt_ev(op); vt_i(a1); vt_i(a2); vt_res(); vt_i(rc); vt_end();
		}
		else if (!strcmp(op, "Split")) { uint64_t v = qb_util_stopwatch_split(sw); vt_ev(op); vt_res(); vt_i((long long)v); vt_end(); }
		else if (!strcmp(op, "SplitLast")) { uint32_t v = qb_util_stopwatch_split_last(sw); vt_ev(op); vt_res(); vt_i(v); vt_end(); }
		else if (!strcmp(op, "SplitGet")) {
			uint64_t v = qb_util_stopwatch_time_split_get(sw, (uint32_t)a1, (uint32_t)a2);
			vt_ev(op); vt_i(a1); vt_i(a2); vt_res(); vt_i((long long)v); vt_end();
		}
		else { fprintf(stderr, "h_stopwatch: unknown op %s\n", op); return 2; }
	}
	vt_close();
	return 0;
}
