/* h_bbfile: blackbox dump files (property C15) -- executes a schedule on the real
 * library and records every call with its observable result (ndjson) for
 * BbFileTrace.tla.
 *
 * usage: h_bbfile <schedule> <trace-out> [--keep DIR] [--batch N]
 *
 * schedule ops (one per line):
 *   Init <size> [<maxline>]           (qb_log_init once per process) close the blackbox, QB_LOG_CONF_SIZE (and
 *                                     QB_LOG_CONF_MAX_LINE_LEN, default 512), open it again
 *   InitAll <size>                    the same, and the blackbox takes every message (filter "*" at LOG_TRACE)
 *   DumpAll                           dump and report which of this harness's records the dump holds, in order
 *   Log <prio> <fn> <tags> <fk> <sz>  one numbered record (qb_log_from_external_source)
 *   Dump                              qb_log_blackbox_write_to_file
 *   Print <trunc> <marker> <ws> <wp> <rp> <ver> <hash> <cj> <creg> <ckind>
 *                                     build a concrete file for the requested abstract case
 *   PrintTrunc <len>                  the dump truncated to <len> bytes
 *   PrintTruncRange <a> <b>           every truncation length in [a, min(b, file length)]
 *   PrintRand <seed> <nbytes> <mode>  seeded multi-byte corruption (mode 0 = the
 *                                     tests/file_change_bytes idea: random bytes at random places)
 *   PrintJunk <seed> <kind> <len>     something that never was a dump
 *   Reset                             close the blackbox, forget the dump
 *
 * Every Print* op writes the concrete file, PROJECTS it onto its abstract class
 * (relative to the pristine dump: which header words / chunk fields / message
 * bytes differ and the class of the new value), then runs the real
 * qb_log_blackbox_print_from_file in a forked child (ASan+UBSan build, stdout and
 * stderr captured, alarm as watchdog; cases are batched, see flush_queue) and records
 *   r = [kind, rc, leftover, k, [printed records...]]
 *   kind: 0 returned, 1 killed by a signal, 2 sanitizer report (incl. SEGV on the
 *         guard tail), 3 abort(), 4 watchdog
 * The harness interposes mmap: in the child the PROT_NONE reservation made by
 * qb_sys_circular_mmap is followed by a 17 GiB PROT_NONE tail, so any 32-bit word
 * index beyond the ring's double mapping faults instead of reading a neighbour.
 * gettimeofday/clock_gettime are scripted while logging (timestamps are inputs).
 * /dev/shm is private to the harness (mount namespace) so parallel harnesses do
 * not collide on the fixed name qb-create_from_file-{header,data}; the census for
 * leftovers is taken in that private /dev/shm.
 * No property semantics here: the oracle is spec/BbFile.tla.                   */
#include "os_base.h"
#include <qb/qblog.h>
#include <qb/qbrb.h>
#include <sys/mman.h>
#include <sys/wait.h>
#include <sys/syscall.h>
#include <sys/mount.h>
#include <sys/file.h>
#include <sched.h>
#include <dirent.h>
#include <time.h>
#include <signal.h>
#include "vtrace.h"

#define MAGIC 0xA1A1A1A1u
#define BB_MIN 27u
#define MAXLOG 4096
#define MAXCH 1024
#define GUARD_TAIL (17ULL << 30)

/* ------------------------------------------------------------ interposers */
static int guard_on;
static int vclock_on;
static long long vsec, vusec;

void *mmap(void *addr, size_t len, int prot, int flags, int fd, off_t off)
{
	if (guard_on && addr == NULL && prot == PROT_NONE && (flags & MAP_ANONYMOUS) && fd == -1) {
		/* the reservation of qb_sys_circular_mmap: add the inaccessible tail */
		return (void *)syscall(SYS_mmap, NULL, len + GUARD_TAIL, PROT_NONE, flags | MAP_NORESERVE, -1, 0);
	}
	return (void *)syscall(SYS_mmap, addr, len, prot, flags, fd, off);
}
int gettimeofday(struct timeval *tv, void *tz)
{
	if (vclock_on) { tv->tv_sec = vsec; tv->tv_usec = vusec; return 0; }
	return syscall(SYS_gettimeofday, tv, tz);
}
int clock_gettime(clockid_t c, struct timespec *ts)
{
	if (vclock_on && (c == CLOCK_REALTIME || c == CLOCK_REALTIME_COARSE)) { ts->tv_sec = vsec; ts->tv_nsec = vusec * 1000; return 0; }
	return syscall(SYS_clock_gettime, c, ts);
}

/* ------------------------------------------------------------ log side */
static const char *FN[3] = { "f", "main", "a_rather_long_function_name_to_vary_the_fn_size_field_0123456789_0123456789" };
static const char *PRI[9] = { "emerg", "alert", "crit", "error", "warning", "notice", "info", "debug", "trace" };
#define SRCFILE "h_bbfile_src.c"

struct rec { long long f[10]; };  /* prio fn line tags mon mday sod msec mlen msum */
static int inited, nlog;
static char workdir[PATH_MAX], dumppath[PATH_MAX], casepath[PATH_MAX];
static const char *keepdir;

static void msgsum(const char *s, long long *len, long long *sum)
{
	unsigned long h = 5381; size_t n = 0;
	for (; s[n]; n++) h = (h * 33 + (unsigned char)s[n]) & 0x3fffffff;
	*len = (long long)n; *sum = (long long)h;
}
static void tsproj(time_t sec, long long msec, long long *out)
{
	struct tm tm; localtime_r(&sec, &tm);
	out[0] = tm.tm_mon; out[1] = tm.tm_mday; out[2] = tm.tm_hour * 3600 + tm.tm_min * 60 + tm.tm_sec; out[3] = msec;
}
static void put_rec(const struct rec *r) { vt_lb(); for (int i = 0; i < 10; i++) vt_i(r->f[i]); vt_le(); }

static char litfmt[8][3100];
static int log_up;
/* The log system is initialised once per process; "Init" closes the blackbox and opens a
 * fresh ring of the requested size.  (qb_log_fini/qb_log_init per history would walk into a
 * libqb limit unrelated to this property: log_dcs.c never resets callsite_arr_next, so
 * dynamic call sites are used up across re-initialisations and _log_dcs_new_cs asserts.) */
static int cur_maxline = 512, all_mode;
static void do_init(int size, int maxline, int all)
{
	int rc3 = 0;
	if (!log_up) {
		qb_log_init("h_bbfile", LOG_USER, LOG_EMERG);
		qb_log_ctl(QB_LOG_SYSLOG, QB_LOG_CONF_ENABLED, QB_FALSE);
		rc3 = qb_log_filter_ctl(QB_LOG_BLACKBOX, QB_LOG_FILTER_ADD, QB_LOG_FILTER_FILE, SRCFILE, LOG_TRACE);
		log_up = 1;
	}
	qb_log_ctl(QB_LOG_BLACKBOX, QB_LOG_CONF_ENABLED, QB_FALSE);
	/* InitAll: the blackbox takes everything, the library's own trace messages included (they are not records of this
	 * harness: DumpAll leaves them out of its projection) */
	if (all != all_mode) {
		/* (leaving: a REMOVE with text "*" takes out the first stored rule of that type, whichever it is -- so the
		 * rules are cleared and the harness's own one is added again) */
		if (all) rc3 |= qb_log_filter_ctl(QB_LOG_BLACKBOX, QB_LOG_FILTER_ADD, QB_LOG_FILTER_FILE, "*", LOG_TRACE);
		else {
			rc3 |= qb_log_filter_ctl(QB_LOG_BLACKBOX, QB_LOG_FILTER_CLEAR_ALL, QB_LOG_FILTER_FILE, "*", LOG_TRACE);
			rc3 |= qb_log_filter_ctl(QB_LOG_BLACKBOX, QB_LOG_FILTER_ADD, QB_LOG_FILTER_FILE, SRCFILE, LOG_TRACE);
		}
		all_mode = all;
	}
	if (maxline <= 0) maxline = 512;
	if (maxline > 3000) maxline = 3000;
	int rc0 = qb_log_ctl(QB_LOG_BLACKBOX, QB_LOG_CONF_MAX_LINE_LEN, maxline);
	cur_maxline = maxline;
	int rc1 = qb_log_ctl(QB_LOG_BLACKBOX, QB_LOG_CONF_SIZE, size);
	int rc2 = qb_log_ctl(QB_LOG_BLACKBOX, QB_LOG_CONF_ENABLED, QB_TRUE);
	inited = 1; nlog = 0;
	vt_ev("Init"); vt_i(size); vt_res(); vt_i(rc0 == 0 && rc1 == 0 && rc2 == 0 && rc3 == 0); vt_end();
}
static void do_fini(void) { if (inited) { qb_log_ctl(QB_LOG_BLACKBOX, QB_LOG_CONF_ENABLED, QB_FALSE); inited = 0; } }

static void do_log(int prio, int fn, long long tags, int fk, int sz)
{
	static char pad[4096], pad2[4096], expect[8192];
	struct rec r;
	int id = ++nlog;
	/* (file, line) names a call site: the line number determines the function (and so do priority, format kind and size class,
	 * which are part of the call site's identity for the library: they are folded in as well) */
	uint32_t line = 1 + (uint32_t)((((prio * 131 + (int)(tags % 97) * 7) * 37) % 331) * 30 + (uint32_t)((fk * 7 + sz) % 10) * 3 + (uint32_t)fn);
	if (sz > cur_maxline - 52) sz = cur_maxline - 52;     /* 460 with the default line length of 512 */
	for (int i = 0; i < sz; i++) { pad[i] = 'a' + (i + id) % 26; pad2[i] = 'A' + (i * 7 + id) % 26; }
	vsec = 1600000000LL + (long long)id * 4001; vusec = ((long long)id * 137911) % 1000000;
	unsigned x = ((unsigned)id * 2654435761u) & 0x7fffffff;
	vclock_on = 1;
	switch (fk) {
	case 0:
		qb_log_from_external_source(FN[fn], SRCFILE, "m%d", prio, line, (uint32_t)tags, id);
		snprintf(expect, sizeof(expect), "m%d", id);
		break;
	case 1:
		pad[sz] = 0;
		qb_log_from_external_source(FN[fn], SRCFILE, "msg %d %s", prio, line, (uint32_t)tags, id, pad);
		snprintf(expect, sizeof(expect), "msg %d %s", id, pad);
		break;
	case 2:
		pad[sz / 2] = 0; pad2[sz / 2] = 0;
		qb_log_from_external_source(FN[fn], SRCFILE, "r%d %s|%x|%s", prio, line, (uint32_t)tags, id, pad, x, pad2);
		snprintf(expect, sizeof(expect), "r%d %s|%x|%s", id, pad, x, pad2);
		break;
	default: {
		/* literal-only format of the requested size (the format string is the message) */
		char *f = litfmt[id % 8];
		int n = snprintf(f, 3100, "lit%d:", sz);
		for (int i = 0; i < sz; i++) f[n + i] = 'k' + (i % 11);
		f[n + sz] = 0;
		qb_log_from_external_source(FN[fn], SRCFILE, f, prio, line, (uint32_t)tags);
		snprintf(expect, sizeof(expect), "%s", f);
		fk = 3;
		break; }
	}
	vclock_on = 0;
	r.f[0] = prio; r.f[1] = fn; r.f[2] = line; r.f[3] = tags;
	tsproj((time_t)vsec, vusec / 1000, &r.f[4]);
	msgsum(expect, &r.f[8], &r.f[9]);
	vt_ev("Log"); vt_i(fk); vt_i(sz); put_rec(&r); vt_res(); vt_end();
}

/* ------------------------------------------------------------ file images */
struct chunk { uint32_t w, size, doff; };          /* start word, size word, ring byte offset of the data */
struct img {
	uint8_t *b; size_t len;
	int hoff;                 /* 20 if the marker block is present, else 0 */
	int lay_new;              /* records carry struct timespec (new) or time_t (old) */
	uint32_t ws, wp, rp, ver, hash;
	int nch; struct chunk ch[MAXCH];
	uint8_t *reg; uint16_t *regj;  /* per ring byte: region code and chunk number */
};
enum { R_DEAD, R_SIZE, R_MAGIC, R_FIELD, R_FNSIZE, R_FN, R_FNTERM, R_TS, R_MSGLEN,
       R_LIT, R_DIR, R_FMTNUL, R_AINT, R_ASTR, R_ASTRNUL, R_END };
static struct img P, PO;      /* pristine dump (new layout) and its old-layout re-encoding */
static int have_dump, have_old;

static const uint32_t MARKER[5] = { 0, 0xCCBBCCBB, 0xBBCCBBCC, 2, 0 };

static uint32_t rd32(const uint8_t *p) { uint32_t v; memcpy(&v, p, 4); return v; }
static void wr32(uint8_t *p, uint32_t v) { memcpy(p, &v, 4); }
#define DOFF(I) ((size_t)(I)->hoff + 20)
#define RB(I) ((size_t)(I)->ws * 4)
static uint8_t *rbyte(struct img *I, uint8_t *buf, size_t ro) { return buf + DOFF(I) + (ro % RB(I)); }
static uint32_t rword(struct img *I, uint8_t *buf, uint32_t w) { return rd32(buf + DOFF(I) + (size_t)(w % I->ws) * 4); }
static void rcopy_out(struct img *I, uint8_t *buf, size_t ro, uint8_t *dst, size_t n) { for (size_t i = 0; i < n; i++) dst[i] = *rbyte(I, buf, ro + i); }
static void rset(struct img *I, uint8_t *buf, size_t ro, const void *src, size_t n) { for (size_t i = 0; i < n; i++) *rbyte(I, buf, ro + i) = ((const uint8_t *)src)[i]; }
static void mark(struct img *I, size_t ro, size_t n, int code, int j) { for (size_t i = 0; i < n; i++) { size_t k = (ro + i) % RB(I); I->reg[k] = code; I->regj[k] = j; } }

static uint32_t step(uint32_t ws, uint32_t p, uint32_t size)
{
	p += 2 + size / 4 + ((size % 4) ? 1 : 0);
	if (p > ws - 1) p %= ws;
	return p;
}

/* walk the ring of a well-formed image and label every byte with its region */
static int parse_img(struct img *I)
{
	if (I->len < (size_t)I->hoff + 20) return -1;
	I->ws = rd32(I->b + I->hoff); I->wp = rd32(I->b + I->hoff + 4); I->rp = rd32(I->b + I->hoff + 8);
	I->ver = rd32(I->b + I->hoff + 12); I->hash = rd32(I->b + I->hoff + 16);
	if (I->ws == 0 || I->len != DOFF(I) + RB(I) || I->wp >= I->ws || I->rp >= I->ws) return -1;
	free(I->reg); free(I->regj);
	I->reg = calloc(RB(I), 1); I->regj = calloc(RB(I), 2);
	I->nch = 0;
	int tslen = I->lay_new ? 16 : 8;
	uint32_t p = I->rp;
	while (p != I->wp && I->nch < MAXCH - 1) {
		if (rword(I, I->b, p + 1) != MAGIC) break;
		struct chunk *c = &I->ch[I->nch++];
		int j = I->nch;
		c->w = p; c->size = rword(I, I->b, p); c->doff = ((size_t)(p + 2) % I->ws) * 4;
		mark(I, (size_t)p * 4, 4, R_SIZE, j); mark(I, ((size_t)(p + 1) % I->ws) * 4, 4, R_MAGIC, j);
		size_t d = c->doff;
		uint32_t fnsz; uint8_t t4[4]; rcopy_out(I, I->b, d + 9, t4, 4); fnsz = rd32(t4);
		if (c->size < BB_MIN || fnsz + BB_MIN > c->size || fnsz == 0) { mark(I, d, c->size, R_DIR, j); p = step(I->ws, p, c->size); continue; }
		mark(I, d, 9, R_FIELD, j); mark(I, d + 9, 4, R_FNSIZE, j);
		mark(I, d + 13, fnsz - 1, R_FN, j); mark(I, d + 13 + fnsz - 1, 1, R_FNTERM, j);
		mark(I, d + 13 + fnsz, tslen, R_TS, j);
		size_t mo = d + 13 + fnsz + tslen;
		mark(I, mo, 4, R_MSGLEN, j);
		size_t m0 = mo + 4, mend = d + c->size;
		/* message area: format string (our family: literals and %d %x %s), then the arguments */
		size_t q = m0; int nd = 0; char conv[16];
		int bad = 0;
		while (q < mend && *rbyte(I, I->b, q)) {
			if (*rbyte(I, I->b, q) == '%') {
				char cv = (q + 1 < mend) ? (char)*rbyte(I, I->b, q + 1) : 0;
				if ((cv == 'd' || cv == 'x' || cv == 's') && nd < 16) { conv[nd++] = cv; mark(I, q, 2, R_DIR, j); q += 2; continue; }
				bad = 1; break;
			}
			mark(I, q, 1, R_LIT, j); q++;
		}
		if (bad || q >= mend) { mark(I, m0, mend - m0, R_DIR, j); }
		else {
			mark(I, q, 1, R_FMTNUL, j); q++;
			for (int a = 0; a < nd && !bad; a++) {
				if (conv[a] == 's') {
					while (q < mend && *rbyte(I, I->b, q)) { mark(I, q, 1, R_ASTR, j); q++; }
					if (q >= mend) { bad = 1; break; }
					mark(I, q, 1, R_ASTRNUL, j); q++;
				} else {
					if (q + 4 > mend) { bad = 1; break; }
					mark(I, q, 4, R_AINT, j); q += 4;
				}
			}
			if (bad || q != mend) mark(I, m0, mend - m0, R_DIR, j);
		}
		p = step(I->ws, p, c->size);
	}
	/* the would-be chunk header at write_pt: the reader stops there only because it is not MAGIC */
	mark(I, (size_t)I->wp * 4, 4, R_END, I->nch + 1);
	mark(I, ((size_t)(I->wp + 1) % I->ws) * 4, 4, R_END, I->nch + 1);
	return 0;
}

static int load_dump(void)
{
	FILE *f = fopen(dumppath, "rb");
	if (!f) return -1;
	free(P.b); P.b = malloc(1 << 22);
	P.len = fread(P.b, 1, 1 << 22, f); fclose(f);
	P.hoff = (P.len >= 20 && !memcmp(P.b, MARKER, 20)) ? 20 : 0;
	P.lay_new = 1;
	have_old = 0;
	return parse_img(&P);
}

/* re-encode the retained records in the old layout (no marker block, time_t timestamps) */
static void build_old(void)
{
	if (have_old) return;
	free(PO.b);
	PO.hoff = 0; PO.lay_new = 0; PO.len = 20 + RB(&P); PO.b = calloc(PO.len, 1);
	uint32_t p = 0;
	for (int j = 0; j < P.nch; j++) {
		static uint8_t d[2048], o[2048];
		uint32_t sz = P.ch[j].size; if (sz > 2000) sz = 2000;
		rcopy_out(&P, P.b, P.ch[j].doff, d, sz);
		uint32_t fnsz = rd32(d + 9);
		size_t head = 13 + fnsz;
		memcpy(o, d, head + 8);                       /* fields, function, tv_sec */
		memcpy(o + head + 8, d + head + 16, sz - head - 16);
		uint32_t nsz = sz - 8;
		wr32(PO.b + 20 + (size_t)p * 4, nsz); wr32(PO.b + 20 + (size_t)(p + 1) * 4, MAGIC);
		memcpy(PO.b + 20 + (size_t)(p + 2) * 4, o, nsz);
		p = p + 2 + nsz / 4 + ((nsz % 4) ? 1 : 0);
	}
	wr32(PO.b, P.ws); wr32(PO.b + 4, p); wr32(PO.b + 8, 0); wr32(PO.b + 12, 1); wr32(PO.b + 16, P.ws + p + 0 + 1);
	parse_img(&PO);
	have_old = 1;
}

/* ------------------------------------------------------------ projection */
struct cd { int j; const char *reg, *kind; };
struct acase {
	const char *trunc, *marker, *wsv, *dlen, *wp, *rp, *rpm, *ver, *hash;
	int ncd; struct cd cd[64];
};
static void add_cd(struct acase *A, int j, const char *reg, const char *kind)
{
	for (int i = 0; i < A->ncd; i++) if (A->cd[i].j == j && !strcmp(A->cd[i].reg, reg) && !strcmp(A->cd[i].kind, kind)) return;
	if (A->ncd < 64) { A->cd[A->ncd].j = j; A->cd[A->ncd].reg = reg; A->cd[A->ncd].kind = kind; A->ncd++; }
}
static int cd_cmp(const void *a, const void *b)
{
	const struct cd *x = a, *y = b;
	if (x->j != y->j) return x->j - y->j;
	int c = strcmp(x->reg, y->reg); return c ? c : strcmp(x->kind, y->kind);
}

static const char *ptr_class(uint32_t v, uint32_t orig, int have_orig, uint32_t ws, size_t flen, const uint8_t *buf, size_t doff, size_t avail)
{
	if (ws == 0) return v > flen ? "file" : "na";
	size_t ews = (((size_t)ws * 4 + 4095) / 4096) * 4096 / 4;  /* qb_rb_open rounds the ring up to whole pages */
	if (v > flen) return "file";
	if (v < ws) return (have_orig && v == orig) ? "same" : "in";
	if (v == ws) return "eq";
	if (v < 2 * ews) return "dbl";
	/* beyond the double mapping: does the (wrapped) magic test let the reader dereference it? */
	size_t mo = ((size_t)(v + 1) % ews) * 4;
	uint32_t mw = 0;
	if (mo + 4 <= (size_t)ws * 4 && mo + 4 <= avail) mw = rd32(buf + doff + mo);
	return mw == MAGIC ? "bmagic" : "beyond";
}

/* project the concrete bytes (buf,len) onto the abstract case, relative to the pristine image B.
 * shift = (offset of the ring data in B) - (offset of the same bytes in buf)                */
static void project(struct img *B, const uint8_t *buf, size_t len, int shift, const char *marker_hint, struct acase *A)
{
	memset(A, 0, sizeof(*A));
	int mk = (len >= 20 && !memcmp(buf, MARKER, 20));
	int ih = mk ? 20 : 0;                       /* where the format says the ring header is */
	if (marker_hint) A->marker = marker_hint;
	else if (!B) A->marker = mk ? "new" : "absent";
	else if (B->hoff == 20) A->marker = mk ? "new" : "damaged";
	else A->marker = mk ? "added" : "old";
	A->trunc = "none"; A->wsv = A->dlen = A->wp = A->rp = A->rpm = A->ver = A->hash = "na";
	if (len == 0) { A->trunc = "empty"; return; }
	if (len < 20) { A->trunc = "mark"; return; }
	if (len < (size_t)ih + 20) {
		static const char *w[5] = { "w0", "w1", "w2", "w3", "w4" };
		A->trunc = w[(len - ih) / 4];
		if (len >= (size_t)ih + 4) { uint32_t w0 = rd32(buf + ih); A->wsv = w0 == 0 ? "zero" : w0 <= len / 4 ? "tiny" : "toobig"; }
		return;
	}
	uint32_t ws = rd32(buf + ih), wp = rd32(buf + ih + 4), rp = rd32(buf + ih + 8), ver = rd32(buf + ih + 12), hash = rd32(buf + ih + 16);
	size_t avail = len - ih - 20;
	int aligned = B && ((int)DOFF(B) - shift == ih + 20);
	if (ws == 0) A->wsv = "zero";
	else if (B && ws == B->ws) A->wsv = "same";
	else if (B && ws < B->ws) A->wsv = (((size_t)ws * 4 + 4095) / 4096 < ((size_t)B->ws * 4 + 4095) / 4096) ? "lesswrap" : "less";
	else A->wsv = B ? "more" : "any";
	A->dlen = ((size_t)ws * 4 == avail) ? "exact" : ((size_t)ws * 4 > avail) ? "short" : "extra";
	A->wp = ptr_class(wp, B ? B->wp : 0, aligned, ws, len, buf, ih + 20, avail);
	A->rp = ptr_class(rp, B ? B->rp : 0, aligned, ws, len, buf, ih + 20, avail);
	A->rpm = "none";
	if (ws) {
		/* would the reader's magic test at read_pt succeed, and is that place a chunk of the pristine dump? */
		size_t ews = (((size_t)ws * 4 + 4095) / 4096) * 4096 / 4;
		size_t mo = ((size_t)(rp % ews + 1) % ews) * 4; uint32_t mw = 0;
		if (mo + 4 <= (size_t)ws * 4 && mo + 4 <= avail) mw = rd32(buf + ih + 20 + mo);
		if (mw == MAGIC) {
			A->rpm = "stray";
			if (aligned && B->ws == ews) for (int j = 0; j < B->nch; j++) if (B->ch[j].w == rp % ews) A->rpm = "chunk";
		}
	}
	A->ver = ver == 1 ? "ok" : "bad";
	A->hash = (hash == ws + wp + rp + ver) ? "ok" : "bad";
	if (!B) return;
	if (!aligned) { add_cd(A, 0, "all", "misaligned"); return; }
	/* ring data: which regions of the pristine image differ, and the class of the new value */
	size_t rb = RB(B), n = avail < rb ? avail : rb;
	const uint8_t *nb = buf + ih + 20, *ob = B->b + DOFF(B);
	for (size_t k = 0; k < n; k++) {
		if (nb[k] == ob[k]) continue;
		int j = B->regj[k];
		switch (B->reg[k]) {
		case R_DEAD: break;
		case R_SIZE: {
			uint32_t v = rd32(nb + (k & ~3UL));
			add_cd(A, j, "size", v < BB_MIN ? "small" : v > 1024 ? "big" : "diff"); break; }
		case R_MAGIC: add_cd(A, j, "magic", "x"); break;
		case R_FIELD: case R_TS: add_cd(A, j, "field", "x"); break;
		case R_FNSIZE: {
			/* the field is not word aligned: reassemble it from the new bytes */
			struct chunk *c = &B->ch[j - 1]; uint8_t t[4];
			for (int i = 0; i < 4; i++) { size_t o = (c->doff + 9 + i) % rb; t[i] = o < n ? nb[o] : ob[o]; }
			uint32_t v = rd32(t);
			add_cd(A, j, "fnsize", v == 0 ? "zero" : (size_t)v + BB_MIN > c->size ? "big" : "diff"); break; }
		case R_FN: add_cd(A, j, "fn", nb[k] ? "body" : "cut"); break;
		case R_FNTERM: add_cd(A, j, "fn", "term"); break;
		case R_MSGLEN: {
			struct chunk *c = &B->ch[j - 1]; uint8_t t[4];
			uint32_t fnsz; uint8_t f4[4]; for (int i = 0; i < 4; i++) f4[i] = ob[(c->doff + 9 + i) % rb]; fnsz = rd32(f4);
			size_t mo = c->doff + 13 + fnsz + (B->lay_new ? 16 : 8);
			for (int i = 0; i < 4; i++) { size_t o = (mo + i) % rb; t[i] = o < n ? nb[o] : ob[o]; }
			uint32_t v = rd32(t);
			add_cd(A, j, "msglen", v == 0 ? "zero" : v > 512 ? "big" : "diff"); break; }
		case R_LIT: add_cd(A, j, "msg", (nb[k] == '%' || nb[k] == 0) ? "hard" : "soft"); break;
		case R_AINT: case R_ASTR: add_cd(A, j, "msg", "soft"); break;
		case R_DIR: case R_FMTNUL: case R_ASTRNUL: add_cd(A, j, "msg", "hard"); break;
		case R_END: {
			uint32_t mw = rd32(nb + (((size_t)(B->wp + 1) % B->ws) * 4));
			add_cd(A, j, "end", (((size_t)(B->wp + 1) % B->ws) * 4 + 4 <= n && mw == MAGIC) ? "magic" : "x"); break; }
		}
	}
	if (n < rb) {
		/* data cut short: everything behind the cut is missing (the header classes already say "short") */
	}
	qsort(A->cd, A->ncd, sizeof(A->cd[0]), cd_cmp);
}

/* ------------------------------------------------------------ running the reader */
struct outcome { int kind, rc, leftover, k, nrec; struct rec recs[MAXCH]; char note[256]; };

static int census(int remove_them)
{
	int n = 0; DIR *d = opendir("/dev/shm"); struct dirent *e;
	if (!d) return 0;
	while ((e = readdir(d))) {
		if (!strncmp(e->d_name, "qb-create_from_file", 19)) {
			n++;
			if (remove_them) { char p[PATH_MAX]; snprintf(p, sizeof(p), "/dev/shm/%s", e->d_name); unlink(p); }
		}
	}
	closedir(d);
	return n;
}

static int parse_line(char *ln, struct rec *r)
{
	/* "%-7s %s %s(%u):%u: %s" with the time as "Mon DD HH:MM:SS.mmm" */
	char pri[16], mon[8], fn[256]; int day, hh, mm, ss, ms; unsigned line, tags; int off = 0;
	for (int i = 0; i < 10; i++) r->f[i] = -1;
	if (sscanf(ln, "%15s %7s %d %d:%d:%d.%d %255[^(](%u):%u: %n", pri, mon, &day, &hh, &mm, &ss, &ms, fn, &line, &tags, &off) < 10 || off == 0) return -1;
	static const char *MON[12] = { "Jan", "Feb", "Mar", "Apr", "May", "Jun", "Jul", "Aug", "Sep", "Oct", "Nov", "Dec" };
	for (int i = 0; i < 9; i++) if (!strcmp(pri, PRI[i])) r->f[0] = i;
	for (int i = 0; i < 3; i++) if (!strcmp(fn, FN[i])) r->f[1] = i;
	r->f[2] = line; r->f[3] = tags & 0x7fffffff;
	for (int i = 0; i < 12; i++) if (!strcmp(mon, MON[i])) r->f[4] = i;
	r->f[5] = day; r->f[6] = hh * 3600 + mm * 60 + ss; r->f[7] = ms;
	msgsum(ln + off, &r->f[8], &r->f[9]);
	return 0;
}

/* Prepared cases are queued and executed in batches: one forked child prints up to `batch`
 * files one after the other (own stdout/stderr/result file per case, census after each);
 * when the child dies on a case, that case gets the crash outcome and a new child
 * continues with the rest.  --batch 1 gives every case its own child.                 */
#define QMAX 64
struct prep { char src[8]; long long i1, i2, i3; char req[256]; struct acase A; };
static struct prep Q[QMAX];
static int nq, batch = 16;
static struct outcome OC;

static void cpath(char *p, size_t n, const char *ext, int i) { snprintf(p, n, "%s/case-%d.%s", workdir, i, ext); }

static void child_run(int from, int to)
{
	char fp[PATH_MAX], op[PATH_MAX], ep[PATH_MAX], rp[PATH_MAX];
	guard_on = 1;
	for (int j = from; j < to; j++) {
		cpath(fp, sizeof(fp), "bin", j); cpath(op, sizeof(op), "out", j); cpath(ep, sizeof(ep), "err", j); cpath(rp, sizeof(rp), "rc", j);
		int fo = open(op, O_CREAT | O_TRUNC | O_WRONLY, 0600), fe = open(ep, O_CREAT | O_TRUNC | O_WRONLY, 0600);
		dup2(fo, 1); dup2(fe, 2); close(fo); close(fe);
		alarm(20);
		int rc = qb_log_blackbox_print_from_file(fp);
		alarm(0);
		fflush(stdout);
		int left = census(1);
		FILE *f = fopen(rp, "w"); if (f) { fprintf(f, "%d %d\n", rc, left); fclose(f); }
	}
	_exit(0);
}

static void collect(int j, struct outcome *o)
{
	/* printed records = stdout lines that are neither the ring summary nor an ERROR notice */
	char op[PATH_MAX]; cpath(op, sizeof(op), "out", j);
	FILE *f = fopen(op, "r");
	static char ln[8192];
	while (f && fgets(ln, sizeof(ln), f)) {
		size_t n = strlen(ln); if (n && ln[n - 1] == '\n') ln[n - 1] = 0;
		if (!strncmp(ln, "Ringbuffer:", 11) || !strncmp(ln, " ->", 3) || !strncmp(ln, " =>", 3) || !strncmp(ln, "ERROR", 5)) continue;
		if (o->nrec < MAXCH) parse_line(ln, &o->recs[o->nrec++]);
		o->k++;
	}
	if (f) fclose(f);
}

static void emit_print(struct prep *q, struct outcome *o)
{
	struct acase *A = &q->A;
	vt_ev("Print");
	vt_s(q->src); vt_i(q->i1); vt_i(q->i2); vt_i(q->i3);
	vt_lb(); vt_s(A->trunc); vt_s(A->marker); vt_s(A->wsv); vt_s(A->dlen); vt_s(A->wp); vt_s(A->rp); vt_s(A->rpm); vt_s(A->ver); vt_s(A->hash); vt_le();
	vt_lb(); for (int i = 0; i < A->ncd; i++) { vt_lb(); vt_i(A->cd[i].j); vt_s(A->cd[i].reg); vt_s(A->cd[i].kind); vt_le(); } vt_le();
	vt_res();
	vt_i(o->kind); vt_i(o->rc); vt_i(o->leftover); vt_i(o->k);
	vt_lb(); for (int i = 0; i < o->nrec && i < 400; i++) put_rec(&o->recs[i]); vt_le();
	vt_put("],\"q\":\"%s\",\"note\":\"", q->req);
	for (const char *c = o->note; *c; c++) if (*c >= 32 && *c < 127 && *c != '"' && *c != '\\') vt_put("%c", *c);
	vt_put("\"}\n"); fwrite(vt_buf, 1, vt_len, vt_out);
}

static void keep_case(int j)
{
	static int nk; char cmd[4 * PATH_MAX];
	snprintf(cmd, sizeof(cmd), "cp %s/case-%d.bin %s/case-%d.bin; cp %s/case-%d.err %s/case-%d.err", workdir, j, keepdir, nk, workdir, j, keepdir, nk); nk++;
	if (system(cmd)) { }
}

static void flush_queue(void)
{
	char p[PATH_MAX];
	int i = 0;
	while (i < nq) {
		for (int j = i; j < nq; j++) { cpath(p, sizeof(p), "rc", j); unlink(p); cpath(p, sizeof(p), "out", j); unlink(p); cpath(p, sizeof(p), "err", j); unlink(p); }
		census(1);
		vt_flush(); fflush(stdout); fflush(stderr);
		pid_t pid = fork();
		if (pid == 0) child_run(i, nq);
		int st = 0;
		while (waitpid(pid, &st, 0) < 0 && errno == EINTR) ;
		int j = i;
		for (; j < nq; j++) {
			cpath(p, sizeof(p), "rc", j);
			FILE *f = fopen(p, "r");
			if (!f) break;
			memset(&OC, 0, sizeof(OC));
			if (fscanf(f, "%d %d", &OC.rc, &OC.leftover) != 2) { OC.kind = 1; snprintf(OC.note, sizeof(OC.note), "no result code"); }
			fclose(f);
			collect(j, &OC);
			if (keepdir && OC.leftover) keep_case(j);
			emit_print(&Q[j], &OC);
		}
		if (j < nq) {
			/* the child ended while printing case j */
			memset(&OC, 0, sizeof(OC));
			if (WIFSIGNALED(st)) {
				int sg = WTERMSIG(st);
				OC.kind = sg == SIGABRT ? 3 : sg == SIGALRM ? 4 : 1;
				snprintf(OC.note, sizeof(OC.note), "signal %d", sg);
			} else if (WEXITSTATUS(st) != 0) {
				OC.kind = 2;
				cpath(p, sizeof(p), "err", j);
				FILE *f = fopen(p, "r"); char ln[512];
				while (f && fgets(ln, sizeof(ln), f)) if (strstr(ln, "ERROR: AddressSanitizer") || strstr(ln, "runtime error")) { snprintf(OC.note, sizeof(OC.note), "%.200s", ln); break; }
				if (f) fclose(f);
			} else { OC.kind = 1; snprintf(OC.note, sizeof(OC.note), "no result code"); }
			OC.leftover = census(1);
			collect(j, &OC);
			if (keepdir) keep_case(j);
			emit_print(&Q[j], &OC);
			j++;
		}
		i = j;
	}
	nq = 0;
}

static void enqueue(const char *src, long long i1, long long i2, long long i3, const char *req, struct acase *A, const uint8_t *b, size_t len)
{
	char p[PATH_MAX]; cpath(p, sizeof(p), "bin", nq);
	FILE *f = fopen(p, "wb");
	if (!f) { perror(p); exit(2); }
	if (len) fwrite(b, 1, len, f);
	fclose(f);
	struct prep *q = &Q[nq++];
	snprintf(q->src, sizeof(q->src), "%s", src); q->i1 = i1; q->i2 = i2; q->i3 = i3;
	snprintf(q->req, sizeof(q->req), "%s", req ? req : "");
	q->A = *A;
	if (nq >= batch) flush_queue();
}

/* ------------------------------------------------------------ builders */
static uint64_t rs;
static uint32_t rnd(void) { rs ^= rs << 13; rs ^= rs >> 7; rs ^= rs << 17; return (uint32_t)(rs >> 16); }

static int tok(const char *a, const char *b) { return !strcmp(a, b); }

static uint32_t ptr_value(const char *k, uint32_t orig, struct img *B, size_t flen)
{
	if (tok(k, "same")) return orig;
	if (tok(k, "next")) return (B->nch >= 2 && orig == B->rp) ? B->ch[1].w : (orig + 1) % B->ws;
	if (tok(k, "mid")) return (orig + 1) % B->ws;
	if (tok(k, "eq")) return B->ws;
	if (tok(k, "dbl")) return orig + B->ws;
	if (tok(k, "b2")) return orig + 2 * B->ws;
	if (tok(k, "b3")) return orig + 3 * B->ws;
	if (tok(k, "lmax")) return (uint32_t)flen;
	if (tok(k, "lover")) return (uint32_t)flen + 1;
	if (tok(k, "huge")) return 0xFFFFFFF0u;
	fprintf(stderr, "h_bbfile: unknown pointer class %s\n", k); exit(2);
}

static void chunk_damage(struct img *B, uint8_t *b, int j, const char *reg, const char *kind)
{
	if (tok(reg, "end")) {
		if (tok(kind, "magic")) { uint32_t v = MAGIC, s = 40; rset(B, b, ((size_t)(B->wp + 1) % B->ws) * 4, &v, 4); rset(B, b, (size_t)B->wp * 4, &s, 4); }
		else { uint32_t s = 0x1234; rset(B, b, (size_t)B->wp * 4, &s, 4); }
		return;
	}
	if (j < 1 || j > B->nch) return;
	struct chunk *c = &B->ch[j - 1];
	size_t d = c->doff; uint8_t t4[4]; rcopy_out(B, b, d + 9, t4, 4);
	uint32_t fnsz = rd32(t4), v;
	size_t mo = d + 13 + fnsz + (B->lay_new ? 16 : 8), m0 = mo + 4, mend = d + c->size;
	if (tok(reg, "size")) {
		v = tok(kind, "zero") ? 0 : tok(kind, "min1") ? BB_MIN - 1 : tok(kind, "min") ? BB_MIN : tok(kind, "trunc") ? c->size - 8 :
		    tok(kind, "plus") ? c->size + 8 : tok(kind, "max") ? 1024 : tok(kind, "big") ? 1025 : 0xFFFFFFF0u;
		rset(B, b, (size_t)c->w * 4, &v, 4);
	} else if (tok(reg, "magic")) {
		v = tok(kind, "zero") ? 0 : tok(kind, "dead") ? 0xD0D0D0D0u : tok(kind, "alloc") ? 0xA110CED0u : MAGIC ^ 0x100;
		rset(B, b, ((size_t)(c->w + 1) % B->ws) * 4, &v, 4);
	} else if (tok(reg, "field")) {
		size_t o = tok(kind, "lineno") ? d : tok(kind, "tags") ? d + 4 : tok(kind, "prio") ? d + 8 : d + 13 + fnsz;
		*rbyte(B, b, o) ^= 0x5;
	} else if (tok(reg, "fnsize")) {
		v = tok(kind, "zero") ? 0 : tok(kind, "one") ? 1 : tok(kind, "minus1") ? fnsz - 1 : tok(kind, "plus1") ? fnsz + 1 :
		    tok(kind, "edge") ? c->size - BB_MIN : tok(kind, "over") ? c->size - BB_MIN + 1 : 0xFFFFFFFFu;
		rset(B, b, d + 9, &v, 4);
	} else if (tok(reg, "fn")) {
		if (tok(kind, "term")) *rbyte(B, b, d + 13 + fnsz - 1) = 'Q'; else *rbyte(B, b, d + 13) ^= 0x3;
	} else if (tok(reg, "msglen")) {
		uint8_t m4[4]; rcopy_out(B, b, mo, m4, 4);
		v = tok(kind, "zero") ? 0 : tok(kind, "max") ? 512 : tok(kind, "over") ? 513 : tok(kind, "huge") ? 0xFFFFFFFFu : rd32(m4) + 1;
		rset(B, b, mo, &v, 4);
	} else if (tok(reg, "msg")) {
		size_t fl = 0; while (m0 + fl < mend && *rbyte(B, b, m0 + fl)) fl++;
		if (tok(kind, "unterm")) { for (size_t q = m0; q < mend; q++) if (!*rbyte(B, b, q)) *rbyte(B, b, q) = 'A'; }
		else if (tok(kind, "fmtnul")) { if (m0 + fl < mend) *rbyte(B, b, m0 + fl) = ' '; }
		else if (tok(kind, "argcut")) { *rbyte(B, b, mend - 1) = *rbyte(B, b, mend - 1) ? 0 : 'Z'; }
		else if (tok(kind, "pct")) { *rbyte(B, b, m0) = '%'; }
		else if (tok(kind, "longdir")) { if (fl >= 2) { *rbyte(B, b, m0) = '%'; for (size_t q = 1; q + 1 < fl; q++) *rbyte(B, b, m0 + q) = '0'; *rbyte(B, b, m0 + fl - 1) = 'd'; } }
		else if (tok(kind, "longmod")) { if (fl >= 2) { *rbyte(B, b, m0) = '%'; for (size_t q = 1; q + 1 < fl; q++) *rbyte(B, b, m0 + q) = 'l'; *rbyte(B, b, m0 + fl - 1) = 'd'; } }
		else if (tok(kind, "width")) { if (fl >= 5) { rset(B, b, m0, "%900d", 5); } else if (fl >= 3) rset(B, b, m0, "%9d", 3); }
		else if (tok(kind, "star")) { if (fl >= 3) rset(B, b, m0, "%*d", 3); }
		else { *rbyte(B, b, m0) = 'X'; if (mend - 1 > m0 + fl + 1) *rbyte(B, b, m0 + fl + 1) ^= 0x1; }  /* soft */
	}
}

/* Print <trunc> <marker> <ws> <wp> <rp> <ver> <hash> <cj> <creg> <ckind> */
static void do_print_gen(struct vt_line *L)
{
	if (!have_dump || L->n < 11) { fprintf(stderr, "h_bbfile: Print without a dump / too few tokens\n"); exit(2); }
	const char *trunc = L->tok[1], *marker = L->tok[2], *ws = L->tok[3], *wp = L->tok[4], *rp = L->tok[5], *ver = L->tok[6], *hash = L->tok[7];
	int cj = atoi(L->tok[8]); const char *creg = L->tok[9], *ckind = L->tok[10];
	struct img *B = &P;
	if (tok(marker, "old") || tok(marker, "add")) { build_old(); B = &PO; }
	uint8_t *b = malloc(B->len + 64); memcpy(b, B->b, B->len); memset(b + B->len, 0x5a, 64);
	size_t len = B->len;
	int h = B->hoff;
	if (cj < 0) cj = B->nch + 1 + cj;         /* -1 = last chunk */
	if (cj != 0 || tok(creg, "end")) chunk_damage(B, b, cj, creg, ckind);
	uint32_t nws = tok(ws, "ok") ? B->ws : tok(ws, "zero") ? 0 : tok(ws, "one") ? 1 : tok(ws, "half") ? B->ws / 2 : tok(ws, "minus1") ? B->ws - 1 :
	               tok(ws, "plus1") ? B->ws + 1 : tok(ws, "big") ? B->ws * 4 : 0xFFFFFFFFu;
	size_t flen_final = len;   /* pointer boundary classes refer to the final file length (without truncation) */
	if (tok(marker, "strip")) flen_final -= 20; else if (tok(marker, "add")) flen_final += 20;
	uint32_t nwp = ptr_value(wp, B->wp, B, flen_final), nrp = ptr_value(rp, B->rp, B, flen_final);
	uint32_t nver = tok(ver, "ok") ? 1 : 2;
	wr32(b + h, nws); wr32(b + h + 4, nwp); wr32(b + h + 8, nrp); wr32(b + h + 12, nver);
	if (tok(hash, "ok")) wr32(b + h + 16, nws + nwp + nrp + nver);
	else if (tok(hash, "bad")) wr32(b + h + 16, nws + nwp + nrp + nver + 1);
	/* "stale": leave the hash of the original header */
	int shift = 0; const char *hint = NULL;
	uint8_t *out = b; uint8_t *tmp = NULL;
	if (tok(marker, "strip")) { out = b + 20; len -= 20; shift = 20; hint = "stripped"; }
	else if (tok(marker, "add")) { tmp = malloc(len + 20 + 64); memcpy(tmp, MARKER, 20); memcpy(tmp + 20, b, len + 64); out = tmp; len += 20; shift = -20; hint = "added"; }
	else if (tok(marker, "dmg")) { wr32(b + 12, 3); }
	int ih = (len >= 20 && !memcmp(out, MARKER, 20)) ? 20 : 0;
	if (tok(trunc, "none")) ;
	else if (tok(trunc, "empty")) len = 0;
	else if (tok(trunc, "mark")) len = 10;
	else if (trunc[0] == 'w' && strlen(trunc) == 2) len = ih + 4 * (trunc[1] - '0') + 2;
	else if (trunc[0] == 'e' && strlen(trunc) == 2) len = ih + 4 * (trunc[1] - '0');
	else if (tok(trunc, "data0")) len = ih + 20;
	else if (tok(trunc, "datah")) len = ih + 20 + RB(B) / 2;
	else if (tok(trunc, "data1")) len = len - 1;
	else if (tok(trunc, "extra")) len = len + 7;
	else { fprintf(stderr, "h_bbfile: unknown truncation %s\n", trunc); exit(2); }
	struct acase A;
	project(B, out, len, shift, hint, &A);
	enqueue("gen", 0, 0, 0, L->raw, &A, out, len);
	free(b); free(tmp);
}

static void do_print_trunc(long long n)
{
	if (!have_dump) exit(2);
	size_t len = (size_t)n > P.len ? P.len : (size_t)n;
	struct acase A;
	project(&P, P.b, len, 0, NULL, &A);
	enqueue("trunc", n, 0, 0, "", &A, P.b, len);
}

static const uint32_t *interesting(uint32_t *n)
{
	static uint32_t v[24];
	uint32_t ws = P.ws, L = (uint32_t)P.len, k = 0;
	v[k++] = 0; v[k++] = 1; v[k++] = ws - 1; v[k++] = ws; v[k++] = ws + 1; v[k++] = 2 * ws; v[k++] = 3 * ws; v[k++] = L; v[k++] = L + 1;
	v[k++] = 0xFFFFFFFFu; v[k++] = MAGIC; v[k++] = 26; v[k++] = 27; v[k++] = 1024; v[k++] = 1025; v[k++] = 512; v[k++] = 513;
	v[k++] = P.rp + 2 * ws; v[k++] = P.wp + 2 * ws; v[k++] = 0x25252525u; v[k++] = 0x80000000u;
	*n = k; return v;
}

static void do_print_rand(long long seed, long long nbytes, long long mode)
{
	if (!have_dump) exit(2);
	uint8_t *b = malloc(P.len); memcpy(b, P.b, P.len);
	rs = 0x9E3779B97F4A7C15ULL ^ ((uint64_t)seed * 0xD1342543DE82EF95ULL); for (int i = 0; i < 4; i++) rnd();
	for (long long i = 0; i < nbytes; i++) {
		if (mode == 0) {
			b[rnd() % P.len] = (uint8_t)rnd();            /* tests/file_change_bytes.c */
		} else if (mode == 1) {
			/* biased to structure: header bytes and chunk header / field bytes */
			size_t pos;
			uint32_t r = rnd() % 4;
			if (r == 0) pos = rnd() % 40;
			else if (P.nch) { struct chunk *c = &P.ch[rnd() % P.nch]; size_t ro = (size_t)c->w * 4 + rnd() % 48; pos = DOFF(&P) + ro % RB(&P); }
			else pos = rnd() % P.len;
			static const uint8_t bv[8] = { 0, 0xff, '%', 0xA1, 1, 0x80, 'd', 's' };
			b[pos] = (rnd() & 1) ? bv[rnd() % 8] : (uint8_t)rnd();
		} else {
			/* whole words set to boundary values, at structure words */
			uint32_t nv; const uint32_t *iv = interesting(&nv);
			size_t pos; uint32_t r = rnd() % 4;
			if (r == 0) pos = 20 + 4 * (rnd() % 5);
			else if (P.nch) {
				struct chunk *c = &P.ch[rnd() % P.nch]; uint32_t which = rnd() % 4;
				size_t ro = which == 0 ? (size_t)c->w * 4 : which == 1 ? ((size_t)(c->w + 1) % P.ws) * 4 : which == 2 ? c->doff + 9 : c->doff + (rnd() % (c->size ? c->size : 1));
				pos = DOFF(&P) + ro % RB(&P);
			} else pos = (rnd() % (P.len / 4)) * 4;
			if (pos + 4 <= P.len) wr32(b + pos, iv[rnd() % nv]);
			if (r == 0 && (rnd() & 1)) wr32(b + 36, rd32(b + 20) + rd32(b + 24) + rd32(b + 28) + rd32(b + 32));   /* header hash recomputed */
		}
	}
	struct acase A;
	project(&P, b, P.len, 0, NULL, &A);
	enqueue("rand", seed, nbytes, mode, "", &A, b, P.len);
	free(b);
}

static void do_print_junk(long long seed, long long kind, long long len)
{
	if (len > (1 << 20)) len = 1 << 20;
	uint8_t *b = calloc(len + 64, 1);
	rs = 0xABCDEF12345ULL ^ ((uint64_t)seed * 0x9E3779B97F4A7C15ULL); for (int i = 0; i < 4; i++) rnd();
	switch (kind) {
	case 0: break;                                                         /* zeros */
	case 1: for (long long i = 0; i < len; i++) b[i] = (uint8_t)rnd(); break;    /* noise */
	case 2: for (long long i = 0; i < len; i++) b[i] = "blackbox text file\n"[i % 19]; break;
	case 3: /* marker block followed by noise */
		for (long long i = 0; i < len; i++) b[i] = (uint8_t)rnd();
		memcpy(b, MARKER, len < 20 ? len : 20); break;
	case 4: { /* self-consistent header (hash ok) over noise, with boundary pointers */
		for (long long i = 0; i < len; i++) b[i] = (uint8_t)rnd();
		int h = (rnd() & 1) ? 20 : 0;
		if (h && len >= 20) memcpy(b, MARKER, 20);
		if (len >= h + 20) {
			uint32_t ws = (uint32_t)((len - h - 20) / 4), sel = rnd() % 6;
			uint32_t wp = sel == 0 ? 0 : sel == 1 ? ws : sel == 2 ? 2 * ws + 5 : sel == 3 ? (uint32_t)len : rnd() % (ws ? ws : 1);
			uint32_t rp = (rnd() % 3 == 0) ? 2 * ws + (rnd() % (ws ? ws : 1)) : rnd() % (ws ? ws : 1);
			wr32(b + h, ws); wr32(b + h + 4, wp); wr32(b + h + 8, rp); wr32(b + h + 12, 1); wr32(b + h + 16, ws + wp + rp + 1);
			/* make the magic test succeed where the reader will look */
			if (ws > 4) { wr32(b + h + 20 + ((size_t)(rp + 1) % ws) * 4, MAGIC); wr32(b + h + 20 + ((size_t)rp % ws) * 4, 40 + rnd() % 64); }
		}
		break; }
	default: for (long long i = 0; i < len; i++) b[i] = 0xA1; break;         /* all magic */
	}
	struct acase A;
	project(NULL, b, len, 0, NULL, &A);
	enqueue("junk", seed, kind, len, "", &A, b, len);
	free(b);
}

static void do_dump(void)
{
	unlink(dumppath);
	ssize_t rc = qb_log_blackbox_write_to_file(dumppath);
	struct stat st; long long flen = stat(dumppath, &st) == 0 ? (long long)st.st_size : -1;
	int ok = rc > 0 && load_dump() == 0;
	have_dump = ok;
	vt_ev("Dump"); vt_res(); vt_i(rc > 0); vt_i(rc == flen); vt_i(ok ? P.ws : 0); vt_i(ok ? P.nch : -1); vt_end();
}

/* DumpAll: dump, then project the dump onto the records of this harness's own call sites, in ring order:
 * [priority, function, line, tags] of every chunk whose function name is one of ours (what else the blackbox was
 * told to take -- the library's own messages under InitAll -- is left out) */
static void do_dump_all(void)
{
	unlink(dumppath);
	ssize_t rc = qb_log_blackbox_write_to_file(dumppath);
	int ok = rc > 0 && load_dump() == 0;
	have_dump = 0;
	vt_ev("DumpAll"); vt_res(); vt_i(ok); vt_i(ok ? P.ws : 0);
	vt_lb();
	for (int j = 0; ok && j < P.nch; j++) {
		static uint8_t d[400];
		uint32_t sz = P.ch[j].size; if (sz > sizeof(d)) sz = sizeof(d);
		if (sz < 14) continue;
		rcopy_out(&P, P.b, P.ch[j].doff, d, sz);
		uint32_t fnsz = rd32(d + 9);
		if (fnsz == 0 || 13 + fnsz > sz) continue;
		int fi = -1;
		for (int i = 0; i < 3; i++) if (strlen(FN[i]) + 1 == fnsz && !memcmp(d + 13, FN[i], fnsz)) fi = i;
		if (fi < 0) continue;
		vt_lb(); vt_i(d[8]); vt_i(fi); vt_i(rd32(d)); vt_i(rd32(d + 4) & 0x7fffffff); vt_le();
	}
	vt_le();
	vt_end();
}

static void isolate_shm(void)
{
	if (unshare(CLONE_NEWNS) == 0 && mount("none", "/", NULL, MS_REC | MS_PRIVATE, NULL) == 0 &&
	    mount("none", "/dev/shm", "tmpfs", 0, "size=512m") == 0) return;
	fprintf(stderr, "h_bbfile: cannot make /dev/shm private (%s); refusing to run (parallel harnesses would collide)\n", strerror(errno));
	exit(2);
}

int main(int argc, char **argv)
{
	if (argc < 3) return 2;
	for (int i = 3; i < argc; i++) {
		if (!strcmp(argv[i], "--keep") && i + 1 < argc) keepdir = argv[++i];
		else if (!strcmp(argv[i], "--batch") && i + 1 < argc) { batch = atoi(argv[++i]); if (batch < 1) batch = 1; if (batch > QMAX) batch = QMAX; }
	}
	setenv("TZ", "UTC", 1); tzset();
	isolate_shm();
	FILE *f = fopen(argv[1], "r");
	if (!f) { perror(argv[1]); return 2; }
	vt_open(argv[2]);
	snprintf(workdir, sizeof(workdir), "%s.d", argv[2]);
	mkdir(workdir, 0700);
	snprintf(dumppath, sizeof(dumppath), "%s/dump.bin", workdir);
	snprintf(casepath, sizeof(casepath), "%s/case.bin", workdir);
	static struct vt_line L;
	while (vt_readline(f, &L)) {
		const char *op = L.tok[0];
		if (strncmp(op, "Print", 5)) flush_queue();
		if (!strcmp(op, "Reset")) { do_fini(); have_dump = 0; have_old = 0; vt_simple("Reset"); }
		else if (!strcmp(op, "Init")) { do_fini(); have_dump = 0; have_old = 0; do_init((int)vt_argi(&L, 1), L.n > 2 ? (int)vt_argi(&L, 2) : 0, 0); }
		else if (!strcmp(op, "InitAll")) { do_fini(); have_dump = 0; have_old = 0; do_init((int)vt_argi(&L, 1), 0, 1); }
		else if (!strcmp(op, "DumpAll")) do_dump_all();
		else if (!strcmp(op, "Log")) do_log((int)vt_argi(&L, 1), (int)vt_argi(&L, 2) % 3, vt_argi(&L, 3), (int)vt_argi(&L, 4), (int)vt_argi(&L, 5));
		else if (!strcmp(op, "Dump")) do_dump();
		else if (!strcmp(op, "Print")) {
			/* keep the request for the replay note (vt_readline tokenised raw in place: rebuild) */
			static char req[512]; req[0] = 0;
			for (int i = 1; i < L.n; i++) { strncat(req, L.tok[i], sizeof(req) - strlen(req) - 2); strcat(req, " "); }
			static struct vt_line L2; L2 = L; for (int i = 0; i < L.n; i++) L2.tok[i] = L.tok[i];
			snprintf(L2.raw, sizeof(L2.raw), "%s", req);
			do_print_gen(&L2);
		}
		else if (!strcmp(op, "PrintTrunc")) do_print_trunc(vt_argi(&L, 1));
		else if (!strcmp(op, "PrintTruncRange")) { for (long long n = vt_argi(&L, 1); n <= vt_argi(&L, 2) && have_dump && n <= (long long)P.len; n++) do_print_trunc(n); }
		else if (!strcmp(op, "PrintRand")) do_print_rand(vt_argi(&L, 1), vt_argi(&L, 2), vt_argi(&L, 3));
		else if (!strcmp(op, "PrintJunk")) do_print_junk(vt_argi(&L, 1), vt_argi(&L, 2), vt_argi(&L, 3));
		else { fprintf(stderr, "h_bbfile: unknown op %s\n", op); return 2; }
	}
	flush_queue();
	do_fini();
	if (log_up) qb_log_fini();
	vt_close();
	if (!keepdir) { char cmd[PATH_MAX + 16]; snprintf(cmd, sizeof(cmd), "rm -rf %s", workdir); if (system(cmd)) { } }
	return 0;
}
