/* h_ipc_step: ONE process, ONE thread.  A real qb_ipcs service whose poll handlers are
 * this harness's own table (so the harness decides when each registered descriptor
 * callback runs) and a real qb_ipcc client (async connect, zero timeouts) are stepped
 * through a schedule; every public call, every msg_process invocation and a projection
 * of the connection state after each step are recorded (ndjson) for IpcMsgTrace.tla.
 *
 * usage: h_ipc_step <schedule> <trace-out> [--kf-skip1] [--kf-skip2]
 *
 * schedule (one op per line; "Rep <n> <op...>" repeats an op, "Until <n> <op...>" repeats it until it
 * returns nothing (negative result / poll() reports nothing), at most n times):
 *   Connect <shm|sock> <max_msg_size>     create service + connect one client
 *   Reset                                 tear everything down
 *   CSend <len> | CSendv <len> | CSendvRecv <len> | CRecv | CEvRecv | CFcMax <n>
 *   CRecvSmall <n> | CEvRecvSmall <n>     receive into a buffer of n bytes (last op of a schedule; r = [returned more than n])
 *   SPoll                                 poll() the connection's registered descriptor with its registered
 *                                         events and run the registered callback with what poll() reports
 *   SForce <revents>                      run the connection's dispatch callback with the given revents (1=IN 4=OUT)
 *   SResp <len> | SRespv <len> | SEvent <len> | SEventv <len> | SRate <0..4>
 *   StallHold <n>                         from now on a client send whose notification byte is refused sees n more refusals
 *                                         before the server gets to run (a server busy in a callback); no event
 *   Cb <ret> [op ; op ...]                script for the next msg_process invocation without one (FIFO):
 *                                         ops run inside the callback (server calls, or client calls standing for
 *                                         the concurrently running client process), then the callback returns <ret>
 *
 * events: {"e":name,"a":[..],"r":[..],"o":[lreq,lresp,levt,c2s,s2c,outstanding,pollout,crd,srd,fc,nreq,nresp,nevt]}
 *   a message is the triple [id,len,hash]; o = projection of the real state after the step:
 *   queue lengths of the three channels, notification bytes in flight in both directions (FIONREAD),
 *   deferred notifications, whether POLLOUT is registered for the connection, poll() on qb_ipcc_fd_get(),
 *   poll() on the server's registered descriptor, the shared flow-control word, and the connection's statistics
 *   counters (qb_ipcs_connection_stats_get: requests, responses, events).
 *
 * --kf-skip1: known finding KF-C02-1: a client event receive that would consume the last notification byte
 *   while notifications are still deferred and more events are queued is not executed (exactly the trigger).
 * --kf-skip2: known finding KF-C02-2: qb_ipcs_response_send/sendv and qb_ipcs_event_sendv are not called with
 *   a message longer than the negotiated maximum (exactly the trigger).
 * A call that is not executed is recorded as "Skip".                                                          */
#include "os_base.h"
#include <poll.h>
#include <signal.h>
#include <sched.h>
#include <sys/ioctl.h>
#include <sys/mount.h>
#include <qb/qbdefs.h>
#include <qb/qbipcc.h>
#include <qb/qbipcs.h>
#include <qb/qbloop.h>
#include "ipc_int.h"
#include "vtrace.h"

#define BUFSZ (1 << 20)
#define C2S_LIMIT 200   /* the client spins while the notification socket is full: inside msg_process (where the single
                         * thread cannot run the server) and for sendv_recv the harness never lets it get there.  At top
                         * level the spin is resolved the way it is in a real system: see send() below */

/* ------------------------------------------------------------------ poll table */
struct pent { int used, fd, events; void *data; qb_ipcs_dispatch_fn_t fn; };
#define MAXP 32
static struct pent ptab[MAXP];
struct jent { void *data; qb_loop_job_dispatch_fn fn; };
static struct jent jobs[64];
static int njobs;

static int32_t p_add(enum qb_loop_priority p, int32_t fd, int32_t ev, void *data, qb_ipcs_dispatch_fn_t fn)
{
	for (int i = 0; i < MAXP; i++) if (ptab[i].used && ptab[i].fd == fd) return -EEXIST;
	for (int i = 0; i < MAXP; i++) if (!ptab[i].used) {
		ptab[i] = (struct pent){1, fd, ev, data, fn};
		return 0;
	}
	return -ENOMEM;
}
static int32_t p_mod(enum qb_loop_priority p, int32_t fd, int32_t ev, void *data, qb_ipcs_dispatch_fn_t fn)
{
	for (int i = 0; i < MAXP; i++) if (ptab[i].used && ptab[i].fd == fd) {
		ptab[i].events = ev; ptab[i].data = data; ptab[i].fn = fn;
		return 0;
	}
	return -ENOENT;
}
static int32_t p_del(int32_t fd)
{
	for (int i = 0; i < MAXP; i++) if (ptab[i].used && ptab[i].fd == fd) { ptab[i].used = 0; return 0; }
	return -ENOENT;
}
static int32_t j_add(enum qb_loop_priority p, void *data, qb_loop_job_dispatch_fn fn)
{
	if (njobs >= 64) return -ENOMEM;
	jobs[njobs++] = (struct jent){data, fn};
	return 0;
}
static void run_jobs(void)
{
	while (njobs > 0) { struct jent j = jobs[0]; memmove(jobs, jobs + 1, sizeof(jobs[0]) * --njobs); j.fn(j.data); }
}

/* ------------------------------------------------------------------ state */
static qb_ipcs_service_t *svc;
static qb_ipcs_connection_t *conn;      /* server side of the one connection */
static qb_ipcc_connection_t *cli;
static int is_shm, maxmsg, in_dispatch, in_cb, kf_skip;
static long last_rc;                    /* result of the most recent op (drives "Until") */
static long nreq, nresp, nevt, nacc_req, ndlv_req, uniq;
static char *sbuf, *rbuf;
static int svc_no;

#define MAXCB 4096
static char *cbq[MAXCB];
static int cbh, cbt;

static void exec_line(char *line);
static void do_dispatch(int forced, int revents);
static void vt_obs_end(void);

/* a top-level qb_ipcc_send / sendv in progress: id, len, hash of the request; set while the library call runs */
static int snd_active, snd_id, snd_len, snd_stalled, snd_spins;
static int stall_hold;                  /* StallHold <n>: a blocked send sees n refusals before the server gets to run */
static uint32_t snd_hash;

/* ------------------------------------------------------------------ messages */
static uint32_t fnv(const void *p, size_t n)
{
	const unsigned char *b = p; uint32_t h = 2166136261u;
	for (size_t i = 0; i < n; i++) { h ^= b[i]; h *= 16777619u; }
	return (h ^ (h >> 30)) & 0x3fffffff;
}
static uint32_t mk_msg(char *buf, int id, int len)
{
	struct qb_ipc_request_header *h = (void *)buf;
	uint64_t x = 0x9e3779b97f4a7c15ull * (uint64_t)(++uniq) + (uint64_t)id;
	memset(buf, 0, len < 16 ? 16 : len);
	h->id = id; h->size = len;
	for (int i = 16; i < len; i++) { x ^= x << 13; x ^= x >> 7; x ^= x << 17; buf[i] = (char)x; }
	return fnv(buf, len);
}
static void log_msg(const void *buf, long long len)
{
	const struct qb_ipc_request_header *h = buf;
	vt_lb();
	if (len >= 16 && len <= BUFSZ) { vt_i(h->id); vt_i(len); vt_i(fnv(buf, len)); }
	else { vt_i(-1); vt_i(len); vt_i(0); }
	vt_le();
}

/* ------------------------------------------------------------------ observation */
static struct pent *conn_ent(void)
{
	for (int i = 0; i < MAXP; i++)
		if (ptab[i].used && ptab[i].fn == qb_ipcs_dispatch_connection_request) return &ptab[i];
	return NULL;
}
static int inq(int fd) { int n = 0; if (fd < 0 || ioctl(fd, FIONREAD, &n) != 0) return -1; return n; }
static int readable(int fd) { struct pollfd p = {fd, POLLIN, 0}; return fd >= 0 && poll(&p, 1, 0) > 0 && (p.revents & POLLIN) ? 1 : 0; }

static void vt_obs_end(void)
{
	vt_put("],\"o\":["); vt_first = 1;
	if (conn && cli && svc) {
		struct pent *e = conn_ent();
		int32_t cfd = -1;
		qb_ipcc_fd_get(cli, &cfd);
		vt_i(svc->funcs.q_len_get(&conn->request));
		vt_i(svc->funcs.q_len_get(&conn->response));
		vt_i(svc->funcs.q_len_get(&conn->event));
		vt_i(inq(conn->setup.u.us.sock));
		vt_i(inq(cli->setup.u.us.sock));
		vt_i(conn->outstanding_notifiers);
		vt_i(e && (e->events & POLLOUT) ? 1 : 0);
		vt_i(readable(cfd));
		vt_i(e ? readable(e->fd) : 0);
		vt_i(cli->funcs.fc_get(&cli->request));
		struct qb_ipcs_connection_stats st;
		memset(&st, 0, sizeof(st));
		qb_ipcs_connection_stats_get(conn, &st, QB_FALSE);
		vt_i((long long)st.requests); vt_i((long long)st.responses); vt_i((long long)st.events);
	}
	vt_end();
}

/* ------------------------------------------------------------------ server callbacks */
static int32_t s_accept(qb_ipcs_connection_t *c, uid_t u, gid_t g) { return 0; }
static void s_created(qb_ipcs_connection_t *c) { conn = c; }
static int32_t s_closed(qb_ipcs_connection_t *c) { return 0; }
static void s_destroyed(qb_ipcs_connection_t *c) { if (c == conn) conn = NULL; }

static int32_t s_msg(qb_ipcs_connection_t *c, void *data, size_t size)
{
	char *script = NULL, *prog = NULL;
	int ret = 0;
	if (!cli) return 0;          /* teardown: not part of the recorded run */
	ndlv_req++;
	vt_ev("CbBegin"); log_msg(data, (long long)size); vt_res(); vt_obs_end();
	in_cb = 1;
	if (cbh != cbt) { script = cbq[cbh % MAXCB]; cbh++; }
	if (script) {
		char *save = NULL;
		ret = atoi(script);
		prog = strchr(script, ' ');
		if (prog) {
			for (char *t = strtok_r(prog, ";", &save); t; t = strtok_r(NULL, ";", &save)) {
				while (*t == ' ') t++;
				if (*t) { char *l = strdup(t); exec_line(l); free(l); }
			}
		}
		free(script);
	}
	in_cb = 0;
	/* the message must still be intact when the callback returns */
	vt_ev("CbEnd"); vt_i(ret); log_msg(data, (long long)size); vt_res(); vt_obs_end();
	return ret;
}

/* ------------------------------------------------------------------ watchdog */
static void on_alarm(int s)
{
	static const char m[] = "{\"e\":\"Hang\",\"a\":[],\"r\":[],\"o\":[]}\n";
	if (vt_out) { fflush(vt_out); (void)!write(fileno(vt_out), m, sizeof(m) - 1); }
	(void)!write(2, "h_ipc_step: watchdog: a call did not return\n", 44);
	_exit(3);
}

/* ------------------------------------------------------------------ connect / reset */
static void step_all(void)
{
	for (int i = 0; i < MAXP; i++) {
		if (!ptab[i].used) continue;
		struct pollfd p = {ptab[i].fd, (short)ptab[i].events, 0};
		if (poll(&p, 1, 0) > 0 && p.revents) {
			int fd = ptab[i].fd;
			int rc = ptab[i].fn(fd, p.revents, ptab[i].data);
			if (rc < 0 && ptab[i].used && ptab[i].fd == fd) ptab[i].used = 0;
		}
	}
	run_jobs();
}

static void do_reset(void)
{
	if (cli) { qb_ipcc_disconnect(cli); cli = NULL; }
	for (int i = 0; i < 8 && conn; i++) step_all();
	if (svc) { qb_ipcs_destroy(svc); svc = NULL; }
	run_jobs();
	conn = NULL;
	memset(ptab, 0, sizeof(ptab));
	njobs = 0;
	while (cbh != cbt) { free(cbq[cbh % MAXCB]); cbh++; }
	nreq = nresp = nevt = nacc_req = ndlv_req = 0;
	in_dispatch = in_cb = 0;
}

static void do_connect(const char *tr, int want)
{
	static struct qb_ipcs_service_handlers sh = { s_accept, s_created, s_msg, s_closed, s_destroyed };
	static struct qb_ipcs_poll_handlers ph = { j_add, p_add, p_mod, p_del };
	char name[64];
	int cfd = -1, rc = -1;
	do_reset();
	is_shm = !strcmp(tr, "shm");
	snprintf(name, sizeof(name), "vc02-%d-%d", (int)getpid(), ++svc_no);
	svc = qb_ipcs_create(name, 0, is_shm ? QB_IPC_SHM : QB_IPC_SOCKET, &sh);
	if (!svc) { fprintf(stderr, "qb_ipcs_create failed\n"); exit(2); }
	qb_ipcs_poll_handlers_set(svc, &ph);
	if (qb_ipcs_run(svc) != 0) { fprintf(stderr, "qb_ipcs_run failed\n"); exit(2); }
	cli = qb_ipcc_connect_async(name, want, &cfd);
	if (!cli) { fprintf(stderr, "qb_ipcc_connect_async failed: %s\n", strerror(errno)); exit(2); }
	for (int i = 0; i < 50; i++) {
		step_all();
		if (readable(cfd)) { rc = qb_ipcc_connect_continue(cli); break; }
	}
	if (rc != 0) { fprintf(stderr, "connect_continue failed %d\n", rc); cli = NULL; exit(2); }
	step_all();
	if (!conn || !conn_ent()) { fprintf(stderr, "no server connection\n"); exit(2); }
	maxmsg = qb_ipcc_get_buffer_size(cli);
	vt_ev("Connect"); vt_i(is_shm); vt_i(maxmsg); vt_res(); vt_i(qb_ipcs_connection_get_buffer_size(conn)); vt_obs_end();
}

/* ------------------------------------------------------------------ ops */
static void do_dispatch(int forced, int revents)
{
	struct pent *e = conn_ent();
	last_rc = -1;
	if (!e || in_dispatch) { vt_ev("Skip"); vt_res(); vt_obs_end(); return; }
	if (!forced) {
		struct pollfd p = {e->fd, (short)e->events, 0};
		revents = poll(&p, 1, 0) > 0 ? p.revents : 0;
		if (!revents) { vt_ev("Idle"); vt_res(); vt_obs_end(); return; }
	}
	last_rc = 1;
	in_dispatch = 1;
	vt_ev("DispBegin"); vt_i(revents); vt_res(); vt_obs_end();
	int fd = e->fd;
	int rc = e->fn(fd, revents, e->data);
	if (rc < 0 && e->used && e->fd == fd) e->used = 0;
	in_dispatch = 0;
	vt_ev("DispEnd"); vt_res(); vt_i(rc); vt_obs_end();
	run_jobs();
}

/* The library writes the request's notification byte with send(); when the socket is full it retries until
 * the server has read some.  Here the server is the same thread: a refused byte during a top-level client send is
 * recorded ("CStall", the request is already in the ring) and the server's dispatch function is run from here --
 * the concurrently running server process -- before the library is told EAGAIN.  If the server application has
 * requests switched off it switches them on again (SRate 1) after two fruitless rounds.                       */
ssize_t send(int fd, const void *buf, size_t n, int flags)
{
	ssize_t r = sendto(fd, buf, n, flags, NULL, 0);
	if (r < 0 && errno == EAGAIN && snd_active && cli && conn && fd == cli->setup.u.us.sock && !in_dispatch) {
		if (!snd_stalled) {
			snd_stalled = 1;
			vt_ev("CStall"); vt_lb(); vt_i(snd_id); vt_i(snd_len); vt_i(snd_hash); vt_le(); vt_res(); vt_obs_end();
		}
		if (++snd_spins > stall_hold + 40) { errno = EAGAIN; return -1; }     /* no progress: the watchdog ends the run ("Hang") */
		if (snd_spins <= stall_hold) { errno = EAGAIN; return -1; }             /* the server is busy for a while longer */
		long before = ndlv_req;
		do_dispatch(0, 0);
		if (ndlv_req == before && (snd_spins % 3) == 2 && svc) {
			qb_ipcs_request_rate_limit(svc, QB_IPCS_RATE_NORMAL);
			vt_ev("SRate"); vt_i(1); vt_res(); vt_obs_end();
		}
		errno = EAGAIN;
		return -1;
	}
	return r;
}

/* message lengths: a number, or M / M-1 / M+1 relative to the negotiated maximum */
static int parse_len(const struct vt_line *L, int i)
{
	const char *t = i < L->n ? L->tok[i] : "16";
	int len = t[0] == 'M' ? maxmsg + atoi(t + 1) : atoi(t);
	if (len < 16 || len > BUFSZ - 64) len = 16;
	return len;
}

static void c_result(const char *name, int id, int len, uint32_t h, long rc, const void *rb, long rrc, int with_recv)
{
	last_rc = rc;
	vt_ev(name); vt_lb(); vt_i(id); vt_i(len); vt_i(h); vt_le(); vt_res(); vt_i(rc);
	if (with_recv) { vt_i(rrc); if (rrc > 0) log_msg(rb, rrc); }
	vt_obs_end();
}

static void exec_op(struct vt_line *L)
{
	const char *op = L->tok[0];
	long long a1 = vt_argi(L, 1);
	alarm(20);
	if (!strcmp(op, "Connect")) { do_connect(L->tok[1], (int)vt_argi(L, 2)); return; }
	if (!strcmp(op, "Reset")) { do_reset(); stall_hold = 0; vt_simple("Reset"); return; }
	if (!strcmp(op, "StallHold")) { stall_hold = (int)a1 < 0 ? 0 : (int)a1 > 2000 ? 2000 : (int)a1; return; }
	if (!cli || !conn) { vt_ev("Skip"); vt_res(); vt_obs_end(); return; }
	/* the client is inside a blocked send: it makes no other call meanwhile */
	if (snd_active && op[0] == 'C') { vt_ev("Skip"); vt_res(); vt_obs_end(); return; }
	if (!strcmp(op, "CSend") || !strcmp(op, "CSendv") || !strcmp(op, "CSendvRecv")) {
		int len = parse_len(L, 1), id;
		long rc;
		if (is_shm && (in_dispatch || !strcmp(op, "CSendvRecv")) && nacc_req - ndlv_req >= C2S_LIMIT) { vt_ev("Skip"); vt_res(); vt_obs_end(); return; }
		id = (int)(++nreq);
		uint32_t h = mk_msg(sbuf, id, len);
		snd_id = id; snd_len = len; snd_hash = h; snd_stalled = 0; snd_spins = 0;
		if (!strcmp(op, "CSend")) {
			snd_active = 1;
			rc = qb_ipcc_send(cli, sbuf, len);
			snd_active = 0;
			if (rc > 0) nacc_req++;
			c_result(op, id, len, h, rc, NULL, 0, 0);
		} else {
			struct iovec iov[2];
			int cut = len > 16 ? 16 + (len - 16) / 2 : len;
			iov[0].iov_base = sbuf; iov[0].iov_len = cut;
			iov[1].iov_base = sbuf + cut; iov[1].iov_len = len - cut;
			if (!strcmp(op, "CSendv")) {
				snd_active = 1;
				rc = qb_ipcc_sendv(cli, iov, 2);
				snd_active = 0;
				if (rc > 0) nacc_req++;
				c_result(op, id, len, h, rc, NULL, 0, 0);
			} else {
				/* qb_ipcc_sendv_recv does not tell a failed send from a failed receive: the queue length of the
				 * request channel before/after (projection) is what the trace carries in "o" */
				memset(rbuf, 0, 32);
				long before = svc->funcs.q_len_get(&conn->request);
				/* optional 2nd argument: timeout in ms (real time; the server does not run meanwhile: a slow server) */
				rc = qb_ipcc_sendv_recv(cli, iov, 2, rbuf, maxmsg, L->n > 2 ? (int32_t)vt_argi(L, 2) : 0);
				long after = svc->funcs.q_len_get(&conn->request);
				if (after > before) nacc_req++;
				last_rc = rc;
				vt_ev(op); vt_lb(); vt_i(id); vt_i(len); vt_i(h); vt_le(); vt_res(); vt_i(rc);
				if (rc > 0) log_msg(rbuf, rc);
				vt_obs_end();
			}
		}
	} else if (!strcmp(op, "CRecv")) {
		memset(rbuf, 0, 32);
		long rc = qb_ipcc_recv(cli, rbuf, maxmsg, 0);
		last_rc = rc;
		vt_ev(op); vt_res(); vt_i(rc); if (rc > 0) log_msg(rbuf, rc); vt_obs_end();
	} else if (!strcmp(op, "CRecvSmall") || !strcmp(op, "CEvRecvSmall")) {
		/* a receive into a buffer of exactly <n> bytes (heap block of that size: ASan sees a byte written past it).  What
		 * such a call does to the queue when the message does not fit is not stated by the property: the event carries
		 * no projection, and the schedule ends after it */
		size_t n = a1 < 1 ? 1 : (size_t)a1;
		char *b = malloc(n);
		long rc = op[1] == 'R' ? qb_ipcc_recv(cli, b, n, 0) : qb_ipcc_event_recv(cli, b, n, 0);
		free(b);
		last_rc = rc;
		vt_ev(op); vt_i((long long)n); vt_res(); vt_i(rc > (long)n ? 1 : 0); vt_put("],\"o\":["); vt_first = 1; vt_end();
	} else if (!strcmp(op, "CEvRecv")) {
		if ((kf_skip & 1) && is_shm && conn->outstanding_notifiers > 0 && inq(cli->setup.u.us.sock) == 1 &&
		    svc->funcs.q_len_get(&conn->event) > 1) { last_rc = -1; vt_ev("Skip"); vt_res(); vt_obs_end(); return; }
		memset(rbuf, 0, 32);
		long rc = qb_ipcc_event_recv(cli, rbuf, maxmsg, 0);
		last_rc = rc;
		vt_ev(op); vt_res(); vt_i(rc); if (rc > 0) log_msg(rbuf, rc); vt_obs_end();
	} else if (!strcmp(op, "CFcMax")) {
		int rc = qb_ipcc_fc_enable_max_set(cli, (uint32_t)a1);
		vt_ev(op); vt_i(a1); vt_res(); vt_i(rc); vt_obs_end();
	} else if (!strcmp(op, "SPoll") || !strcmp(op, "SForce")) {
		if (in_cb) { vt_ev("Skip"); vt_res(); vt_obs_end(); return; }
		do_dispatch(!strcmp(op, "SForce"), (int)a1 & (POLLIN | POLLOUT));
	} else if (!strcmp(op, "SResp") || !strcmp(op, "SRespv") || !strcmp(op, "SEvent") || !strcmp(op, "SEventv")) {
		int len = parse_len(L, 1), ev = op[1] == 'E', id;
		long rc;
		if ((kf_skip & 2) && len > maxmsg && strcmp(op, "SEvent")) { vt_ev("Skip"); vt_res(); vt_obs_end(); return; }
		id = ev ? (int)(200000 + ++nevt) : (int)(100000 + ++nresp);
		uint32_t h = mk_msg(sbuf, id, len);
		if (op[strlen(op) - 1] == 'v') {
			struct iovec iov[2];
			int cut = len > 16 ? 16 + (len - 16) / 3 : len;
			iov[0].iov_base = sbuf; iov[0].iov_len = cut;
			iov[1].iov_base = sbuf + cut; iov[1].iov_len = len - cut;
			rc = ev ? qb_ipcs_event_sendv(conn, iov, 2) : qb_ipcs_response_sendv(conn, iov, 2);
		} else {
			rc = ev ? qb_ipcs_event_send(conn, sbuf, len) : qb_ipcs_response_send(conn, sbuf, len);
		}
		c_result(op, id, len, h, rc, NULL, 0, 0);
	} else if (!strcmp(op, "SRate")) {
		qb_ipcs_request_rate_limit(svc, (enum qb_ipcs_rate_limit)a1);
		vt_ev(op); vt_i(a1); vt_res(); vt_obs_end();
	} else {
		fprintf(stderr, "h_ipc_step: unknown op %s\n", op); exit(2);
	}
}

static void exec_line(char *line)
{
	struct vt_line L;
	char *save = NULL;
	while (*line == ' ' || *line == '\t') line++;
	if (!strncmp(line, "Cb ", 3) || !strcmp(line, "Cb")) {
		char *nl = strchr(line, '\n'); if (nl) *nl = 0;
		if (cbt - cbh < MAXCB) { cbq[cbt % MAXCB] = strdup(line[2] ? line + 3 : "0"); cbt++; }
		return;
	}
	if (!strncmp(line, "Rep ", 4) || !strncmp(line, "Until ", 6)) {
		int until = line[0] == 'U';
		char *p = line + (until ? 6 : 4);
		long n = strtol(p, &p, 10);
		for (long i = 0; i < n; i++) {
			char *l = strdup(p); last_rc = 0; exec_line(l); free(l);
			if (until && last_rc <= 0) break;
		}
		return;
	}
	snprintf(L.raw, sizeof(L.raw), "%s", line);
	L.n = 0;
	for (char *t = strtok_r(L.raw, " \t\r\n", &save); t && L.n < VT_MAXTOK; t = strtok_r(NULL, " \t\r\n", &save)) L.tok[L.n++] = t;
	if (L.n) exec_op(&L);
}

static void isolate_shm(void)
{
	if (unshare(CLONE_NEWNS) == 0 && mount("none", "/", NULL, MS_REC | MS_PRIVATE, NULL) == 0 &&
	    mount("none", "/dev/shm", "tmpfs", 0, "size=256m") == 0) return;
	/* not fatal: names carry the pid, the driver removes /dev/shm/qb-<pid>-* afterwards */
}

int main(int argc, char **argv)
{
	if (argc < 3) return 2;
	for (int i = 3; i < argc; i++) {
		if (!strcmp(argv[i], "--kf-skip1")) kf_skip |= 1;
		if (!strcmp(argv[i], "--kf-skip2")) kf_skip |= 2;
	}
	FILE *f = fopen(argv[1], "r");
	if (!f) { perror(argv[1]); return 2; }
	isolate_shm();
	signal(SIGALRM, on_alarm);
	signal(SIGPIPE, SIG_IGN);
	sbuf = malloc(BUFSZ); rbuf = malloc(BUFSZ);
	vt_open(argv[2]);
	char *line = malloc(1 << 16);
	while (fgets(line, 1 << 16, f)) exec_line(line);
	alarm(10);
	do_reset();
	vt_close();
	return 0;
}
